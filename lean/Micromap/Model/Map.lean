/-
L0 mirror of `src/map.rs`, `src/ctors.rs`, `src/index.rs`, `src/clone.rs`,
`src/eq.rs`, `src/from.rs`, `src/drain.rs` and the consuming iterator of
`src/iterators.rs`: one `def` per Rust `fn`, same statement order, same order
of callbacks (DESIGN.md Appendix A).
-/
import Micromap.Model.Basic

namespace Micromap

/-- What a lookup compares the stored key with: a key (`p.0 == k`, or `Q = K`
    through the blanket `Borrow<K> for K`) or a borrowed form (`x.borrow() == q`). -/
inductive Probe (K Q : Type) where
  | key (k : K)
  | q (q : Q)

section
variable {K V Q : Type} (E : Env K V Q)

/-- stored key on the left, probe on the right. -/
def probeEq (stored : K) : Probe K Q → SM K V Q Bool
  | .key k => eqK E stored k
  | .q q => eqQ E (E.borrow stored) q

/-- `slice.iter().find(|p| p.assume_init_ref().0 … == k)` over `n` remaining
    elements starting at slot `i` of the (immutably borrowed) container `r`. -/
def scanFromR (r : Raw K V) (pr : Probe K Q) : Nat → Nat → SM K V Q (Option Nat)
  | 0, _ => pure none
  | n + 1, i => do
    let p ← itemRefR r i
    if (← probeEq E p.1 pr) then pure (some i) else scanFromR r pr n (i + 1)

/-- `&r.pairs[..r.len]` then the scan. -/
def scanR (r : Raw K V) (pr : Probe K Q) : SM K V Q (Option Nat) := do
  if r.len ≤ r.cap then scanFromR E r pr r.len 0 else throwP .oob

def scan (pr : Probe K Q) : SM K V Q (Option Nat) := fun s => scanR E s.r pr s

/-! ### `map.rs::internal` -/

/-- `remove_index_read`: move slot `i` out, swap the last live slot into the hole. -/
def remove_index_read (i : Nat) : SM K V Q (K × V) := do
  let result ← itemRead i
  let len ← getLen
  if len = 0 then ubM else
  setLen (len - 1)
  if i ≠ len - 1 then
    let value ← itemRead (len - 1)
    itemWrite i value
  pure result

/-- `remove_index_drop` (repaired): move out and compact first, drop afterwards. -/
def remove_index_drop (i : Nat) : SM K V Q Unit := do
  let p ← remove_index_read i
  dropPair E p

/-- drops of the by-value parameters `k`, `v` at scope exit or on unwinding
    (reverse declaration order: `v` first). -/
def dropArgs (k : K) (v : V) : SM K V Q Unit := do
  unwindWith (dropK k) (dropV E v)
  dropK k

/-- `insert_ii`. Returns the slot and the displaced pair. -/
def insert_ii (k : K) (v : V) (update_key : Bool) : SM K V Q (Nat × Option (K × V)) :=
  unwindWith (dropArgs E k v) do
    match ← scan E (.key k) with
    | some i =>
      if update_key then
        let old ← pairReplace i (k, v)
        pure (i, some old)
      else
        let oldv ← valueReplace i v
        pure (i, some (k, oldv))
    | none =>
      let i ← getLen
      let cap ← getCap
      debugAssert (i < cap) .overflow
      checkedWrite i (k, v)
      setLen (i + 1)
      pure (i, none)

/-- `insert_ii_for_full`. -/
def insert_ii_for_full (k : K) (v : V) (update_key : Bool) :
    SM K V Q (Option (Nat × (K × V))) := do
  let found ← unwindWith (dropArgs E k v) (scan E (.key k))
  match found with
  | some i =>
    if update_key then
      let old ← pairReplace i (k, v)
      pure (some (i, old))
    else
      let oldv ← valueReplace i v
      pure (some (i, (k, oldv)))
  | none =>
    dropArgs E k v
    pure none

/-- the hand-rolled loop of `insert_i`. -/
def insert_i_loop (k : K) : Nat → Nat → SM K V Q (Option (Nat × (K × V)))
  | 0, _ => pure none
  | n + 1, i => do
    let p ← itemRef i
    if (← eqK E p.1 k) then
      let old ← itemRead i
      pure (some (i, old))
    else insert_i_loop k n (i + 1)

/-- `insert_i` (behind `insert_unchecked`). -/
def insert_i (k : K) (v : V) (update_key : Bool) : SM K V Q (Nat × Option (K × V)) :=
  unwindWith (dropArgs E k v) do
    let len ← getLen
    let cap ← getCap
    let found ← insert_i_loop E k len 0
    match found with
    | none =>
      debugAssert (len < cap) .overflow
      setLen (len + 1)
      itemWrite len (k, v)
      pure (len, none)
    | some (target, (old_k, old_v)) =>
      if !update_key then
        itemWrite target (old_k, v)
        pure (target, some (k, old_v))
      else
        itemWrite target (k, v)
        pure (target, some (old_k, old_v))

/-! ### public API of `map.rs` -/

def capacity : SM K V Q Nat := getCap
def len : SM K V Q Nat := getLen
def is_empty : SM K V Q Bool := do pure ((← getLen) == 0)

/-- drop the slots `i, i+1, …` (`n` of them), ascending. -/
def dropRange : Nat → Nat → SM K V Q Unit
  | 0, _ => pure ()
  | n + 1, i => do
    itemDrop E i
    dropRange n (i + 1)

/-- `clear` (repaired): publish `len = 0` first, then drop the old prefix. -/
def clear : SM K V Q Unit := do
  let len ← getLen
  setLen 0
  dropRange E len 0

/-- `Drop for Map`. -/
def dropMap : SM K V Q Unit := do
  let len ← getLen
  dropRange E len 0

/-- `retain`. `f callno k v = (keep, v')` is the user predicate with its write to `&mut V`.
    The loop measure is `len - i`; `fuel` starts at `len`. -/
def retainLoop (f : Nat → K → V → Bool × V) : Nat → Nat → SM K V Q Unit
  | 0, i => do
    let len ← getLen
    if i < len then ubM else pure ()
  | fuel + 1, i => do
    let len ← getLen
    if i < len then
      let p ← itemRef i
      callF 0
      let s ← getS
      let (keep, v') := f s.w.calls p.1 p.2
      let _ ← valueReplace i v'
      if keep then retainLoop f fuel (i + 1)
      else
        remove_index_drop E i
        retainLoop f fuel i
    else pure ()

def retain (f : Nat → K → V → Bool × V) : SM K V Q Unit := do
  let len ← getLen
  retainLoop E f len 0

def contains_key (pr : Probe K Q) : SM K V Q Bool := do
  pure (← scan E pr).isSome

/-- `remove`: `remove_index_read(i).1`; the key of the temporary is dropped. -/
def remove (pr : Probe K Q) : SM K V Q (Option V) := do
  match ← scan E pr with
  | none => pure none
  | some i =>
    let p ← remove_index_read i
    unwindWith (leak (.v p.2)) (dropK p.1)   -- the value already sits in the return place: leaked
    pure (some p.2)

def remove_entry (pr : Probe K Q) : SM K V Q (Option (K × V)) := do
  match ← scan E pr with
  | none => pure none
  | some i => pure (some (← remove_index_read i))

/-- `existing_pair.map(|(_, v)| v)`: the supplied key that came back is dropped.  If that
    drop unwinds, the value has already been moved into the return place, which rustc does
    not drop on this path (observed on the real crate: the old value is leaked). -/
def dropReturnedKey (o : Option (K × V)) : SM K V Q (Option V) :=
  match o with
  | none => pure none
  | some (k, v) => do
    unwindWith (leak (.v v)) (dropK k)
    pure (some v)

def insert (k : K) (v : V) : SM K V Q (Option V) := do
  let (_, existing) ← insert_ii E k v false
  dropReturnedKey existing

def checked_insert (k : K) (v : V) : SM K V Q (Option (Option V)) := do
  let len ← getLen
  let cap ← getCap
  if len < cap then
    let (_, existing) ← insert_ii E k v false
    pure (some (← dropReturnedKey existing))
  else
    match ← insert_ii_for_full E k v false with
    | none => pure none
    | some (_, p) => pure (some (← dropReturnedKey (some p)))

def insert_key_value (k : K) (v : V) : SM K V Q (Option (K × V)) := do
  let (_, existing) ← insert_ii E k v true
  pure existing

def insert_unchecked (k : K) (v : V) : SM K V Q (Option V) := do
  let (_, existing) ← insert_i E k v false
  dropReturnedKey existing

/-- `get`, `get_key_value`: slot position and the stored pair (a reference). -/
def get (pr : Probe K Q) : SM K V Q (Option (Nat × (K × V))) := do
  match ← scan E pr with
  | none => pure none
  | some i => pure (some (i, ← itemRef i))

/-- `get_mut` followed by a write `*r = g(*r)` through the returned reference. -/
def get_mut (pr : Probe K Q) (g : V → V) : SM K V Q (Option (Nat × (K × V))) := do
  match ← scan E pr with
  | none => pure none
  | some i =>
    let p ← itemRef i
    let _ ← valueReplace i (g p.2)
    pure (some (i, (p.1, g p.2)))

/-- `Index::index`. -/
def index (pr : Probe K Q) : SM K V Q (Nat × (K × V)) := do
  match ← get E pr with
  | some r => pure r
  | none => throwP .noentry

/-- `IndexMut::index_mut` followed by a write. -/
def index_mut (pr : Probe K Q) (g : V → V) : SM K V Q (Nat × (K × V)) := do
  match ← get_mut E pr g with
  | some r => pure r
  | none => throwP .noentry

/-! ### `get_disjoint_mut` -/

/-- `k == k_behind` between two requests (`[&Q; J]` is homogeneous: `Q = K` or the borrowed form). -/
def reqEq : Probe K Q → Probe K Q → SM K V Q Bool
  | .key a, .key b => eqK E a b
  | .q a, .q b => eqQ E a b
  | .key a, .q b => eqQ E (E.borrow a) b
  | .q a, .key b => eqQ E a (E.borrow b)

/-- `k.borrow() == p.0.borrow()`: request on the left, stored key on the right. -/
def reqEqStored (stored : K) : Probe K Q → SM K V Q Bool
  | .key k => eqK E k stored
  | .q q => eqQ E q (E.borrow stored)

/-- inner loop of the overlap pre-check: `assert!(k != k_behind)`. -/
def overlapInner (k : Probe K Q) : List (Probe K Q) → SM K V Q Unit
  | [] => pure ()
  | kb :: rest => do
    let e ← reqEq E k kb
    assertP (!e) .overlap
    overlapInner k rest

def overlapCheck : List (Probe K Q) → SM K V Q Unit
  | [] => pure ()
  | k :: rest => do
    overlapInner E k rest
    overlapCheck rest

/-- `ks.iter().position(|&k| k.borrow() == p.0.borrow())`: request on the left. -/
def positionOf (stored : K) : List (Probe K Q) → Nat → SM K V Q (Option Nat)
  | [], _ => pure none
  | k :: rest, t => do
    if (← reqEqStored E stored k) then pure (some t) else positionOf stored rest (t + 1)

/-- the pass over the map that fills `stack` (checked index `stack[stack_top]`). -/
def disjointCollect (ks : List (Probe K Q)) : Nat → Nat → List (Nat × Nat) → SM K V Q (List (Nat × Nat))
  | 0, _, stack => pure stack
  | n + 1, pair_i, stack => do
    let p ← itemRef pair_i
    match ← positionOf E p.1 ks 0 with
    | some ks_i =>
      assertP (stack.length < ks.length) .oob
      disjointCollect ks n (pair_i + 1) (stack ++ [(pair_i, ks_i)])
    | none => disjointCollect ks n (pair_i + 1) stack

/-- insertion sort by `pair_i` (the stack is already increasing; any correct sort agrees). -/
def insertSorted (x : Nat × Nat) : List (Nat × Nat) → List (Nat × Nat)
  | [] => [x]
  | y :: ys => if x.1 ≤ y.1 then x :: y :: ys else y :: insertSorted x ys

def sortStack : List (Nat × Nat) → List (Nat × Nat)
  | [] => []
  | x :: xs => insertSorted x (sortStack xs)

/-- back-to-front `split_at_mut`; `ret[ks_i] = Some(slot pair_i)`. -/
def disjointSplit : List (Nat × Nat) → Nat → List (Option Nat) → SM K V Q (List (Option Nat))
  | [], _, ret => pure ret
  | (pair_i, ks_i) :: rest, restLen, ret => do
    assertP (pair_i ≤ restLen) .oob          -- split_at_mut(mid): mid <= len
    assertP (pair_i < restLen) .oob          -- tail[0]
    let _ ← itemRef pair_i                   -- assume_init_mut
    assertP (ks_i < ret.length) .oob         -- ret[*ks_i]
    disjointSplit rest pair_i (ret.set ks_i (some pair_i))

/-- `get_disjoint_unchecked_mut`: for each request the slot it refers to. -/
def get_disjoint_unchecked_mut (ks : List (Probe K Q)) : SM K V Q (List (Option Nat)) := do
  match ks with
  | [] => pure []
  | [k] =>
    match ← scan E k with
    | none => pure [none]
    | some i => do
      let _ ← itemRef i
      pure [some i]
  | _ =>
    let len ← getLen
    let stack ← disjointCollect E ks len 0 []
    let sorted := sortStack stack
    let n ← sliceToLen
    disjointSplit sorted.reverse n (ks.map fun _ => none)

def get_disjoint_mut (ks : List (Probe K Q)) : SM K V Q (List (Option Nat)) := do
  match ks with
  | [] => pure []
  | _ =>
    overlapCheck E ks
    get_disjoint_unchecked_mut E ks

/-- write `*r = g(*r)` through every returned reference (slots are distinct when the
    references do not alias; applying per slot listed). -/
def writeSlots (g : V → V) : List (Option Nat) → SM K V Q Unit
  | [] => pure ()
  | none :: rest => writeSlots g rest
  | some i :: rest => do
    let p ← itemRef i
    let _ ← valueReplace i (g p.2)
    writeSlots g rest

/-! ### `clone.rs`, `eq.rs`, `from.rs` -/

/-- `clone` (repaired): the local `m` is `self` of the state; `src` is the map being
    cloned (borrowed immutably).  `len` advances with every written slot. -/
def cloneLoop (src : Raw K V) : Nat → Nat → SM K V Q Unit
  | 0, _ => pure ()
  | n + 1, i => do
    let cap ← getCap
    if i < cap then                      -- `zip` stops at the shorter side
      let p ← itemRefR src i
      let p' ← clonePair E p
      itemWrite i p'
      setLen (i + 1)
      cloneLoop src n (i + 1)
    else pure ()

/-- Runs with `s.r = Raw.new cap` (the local `m`); on unwinding the local is dropped. -/
def cloneInto (src : Raw K V) : SM K V Q Unit :=
  unwindWith (dropMap E) do
    if src.len ≤ src.cap then cloneLoop E src src.len 0 else throwP .oob

/-- `self.iter().all(|(k, v)| other.get(k) == Some(v))`; `self` is `a`, `other` is `b`. -/
def eqLoop (a b : Raw K V) : Nat → Nat → SM K V Q Bool
  | 0, _ => pure true
  | n + 1, i => do
    let p ← itemRefR a i
    match ← scanR E b (.key p.1) with
    | none => pure false
    | some j =>
      let q ← itemRefR b j
      if (← eqV E q.2 p.2) then eqLoop a b n (i + 1) else pure false

def mapEq (a b : Raw K V) : SM K V Q Bool := do
  if a.len == b.len then
    if a.len ≤ a.cap then eqLoop E a b a.len 0 else throwP .oob
  else pure false

/-- drop a list of pairs front to back (a source iterator dropped with items left). -/
def dropList : List (K × V) → SM K V Q Unit
  | [] => pure ()
  | p :: rest => do
    unwindWith (dropList rest) (dropPair E p)
    dropList rest

/-- `from_iter` / `extend` body: `for (k, v) in iter { m.insert(k, v); }`.  The source
    is a list; with `pulls` each `next` is a user callback (an instrumented iterator),
    without it is std's array iterator.  On unwinding the source is dropped with the
    items it still holds. -/
def extendLoop (pulls : Bool) : List (K × V) → SM K V Q Unit
  | [] => if pulls then pullSrc else pure ()      -- the final `next` returning `None`
  | (k, v) :: rest => do
    if pulls then unwindWith (dropList E ((k, v) :: rest)) pullSrc
    match ← unwindWith (dropList E rest) (insert E k v) with
    | some old => unwindWith (dropList E rest) (dropV E old)   -- `m.insert(k, v);` discards the old value
    | none => pure ()
    extendLoop pulls rest

/-- `from_iter`: runs with `s.r = Raw.new cap` (the local `m`); on unwinding the
    source is dropped first (inside `extendLoop`), then the local. -/
def from_iter (pulls : Bool) (xs : List (K × V)) : SM K V Q Unit :=
  unwindWith (dropMap E) (extendLoop E pulls xs)

/-! ### `serialization.rs` over the abstract serde data model -/

/-- the slice of the serde data model that `serialize_map` / `serialize_seq` produce: the announced
    length, the entries (`serialize_entry(k, v)`; for a set `serialize_element(k)` with `v = ()`),
    the end marker. -/
inductive Tok (K V : Type) where
  | start (announced : Option Nat)
  | entry (k : K) (v : V)
  | fin

/-- what `iter()` yields: the slots below `len`, ascending. -/
def iterAllR (r : Raw K V) : Nat → Nat → SM K V Q (List (K × V))
  | 0, _ => pure []
  | n + 1, i => do
    let p ← itemRefR r i
    let rest ← iterAllR r n (i + 1)
    pure (p :: rest)

/-- `Serialize for Map` / `for Set`: `serialize_map(Some(self.len()))`, one `serialize_entry` per
    item of `self.iter()`, `end()`.  The announced length is read from `len`, the entries come from
    the iteration — two different sources in the code. -/
def serializeR (r : Raw K V) : SM K V Q (List (Tok K V)) := do
  let l ← (if r.len ≤ r.cap then iterAllR r r.len 0 else throwP .oob)
  pure (.start (some r.len) :: l.map (fun p => .entry p.1 p.2) ++ [.fin])

/-- `K::deserialize` / `V::deserialize`: a new object equal in content (fresh identity, like a
    clone, but not a callback that can be made to panic). -/
def decodeK (k : K) : SM K V Q K := fun s =>
  .ok (E.clK s.w.nextId k) { s with w := { s.w with nextId := s.w.nextId + 1 } }

def decodeV (v : V) : SM K V Q V := fun s =>
  if E.vGlue then .ok (E.clV s.w.nextId v) { s with w := { s.w with nextId := s.w.nextId + 1 } }
  else .ok v s

/-- `visit_map` / `visit_seq`: `while let Some((key, value)) = access.next_entry()? { m.insert(key, value); }`.
    Runs on the local `m`; an old value returned by `insert` is dropped at the `;`. -/
def visitLoop : List (Tok K V) → SM K V Q Unit
  | .entry k v :: rest => do
    let k' ← decodeK E k
    let v' ← decodeV E v
    match ← insert E k' v' with
    | some old => dropV E old
    | none => pure ()
    visitLoop rest
  | _ => pure ()

/-- `Deserialize`: runs with `s.r = Raw.new cap` (the local `m` of the visitor); if `insert`
    unwinds (more distinct keys than capacity) the local is dropped. -/
def deserializeInto (toks : List (Tok K V)) : SM K V Q Unit :=
  unwindWith (dropMap E) (match toks with
    | .start _ :: rest => visitLoop E rest
    | _ => pure ())

/-! ### `drain.rs` and the consuming iterator -/

/-- `drain()`: publish `len = 0`; the iterator owns the old prefix `[0, old_len)`. -/
def drainStart : SM K V Q Nat := do
  let n ← sliceToLen
  setLen 0
  pure n

/-- `Drain::next` on the remaining range `[lo, hi)`. -/
def drainNext (lo hi : Nat) : SM K V Q (Option (K × V)) :=
  if lo < hi then do pure (some (← itemRead lo)) else pure none

/-- `Drop for Drain`: drop the rest, ascending. -/
def drainDrop (lo hi : Nat) : SM K V Q Unit := dropRange E (hi - lo) lo

/-- `IntoIter::next`: pops from the end. -/
def intoIterNext : SM K V Q (Option (K × V)) := do
  let len ← getLen
  if len > 0 then
    setLen (len - 1)
    pure (some (← itemRead (len - 1)))
  else pure none

end
end Micromap
