/-
L0 — the slot machine.  Monad with three outcomes (ok / panic = unwinding / ub),
the container representation `Raw`, the outside `World`, the user-code
environment `Env`, and the primitives that mirror `MaybeUninit`, indexing and
the callbacks.  This file is the modelled semantics of the Rust primitives
(DESIGN.md §3.1) and imports nothing outside core.
-/
namespace Micromap

inductive PanicClass where
  | overflow   -- debug_assert!(i < N, "No more key-value slot available in the map")
  | oob        -- checked index / slice / split_at_mut out of bounds
  | noentry    -- expect("No entry found for the key")
  | overlap    -- assert!(k != k_behind, "Overlapping keys")
  | capacity   -- assert!(capacity == N)
  | inject     -- a user callback panicked (injected)
  deriving DecidableEq, Repr, Inhabited

inductive Profile where
  | debug | release
  deriving DecidableEq, Repr, Inhabited

/-- Outcome of running a piece of the machine. `panic` carries the state at the
    point where unwinding leaves the modelled code. `ub` = the real program would
    have undefined behaviour (read/drop of a non-live slot, unchecked OOB). -/
inductive Res (σ α : Type) where
  | ok (a : α) (s : σ)
  | panic (c : PanicClass) (s : σ)
  | ub

def M (σ α : Type) := σ → Res σ α

namespace M
@[inline] protected def pure (a : α) : M σ α := fun s => .ok a s
@[inline] protected def bind (m : M σ α) (f : α → M σ β) : M σ β := fun s =>
  match m s with
  | .ok a s' => f a s'
  | .panic c s' => .panic c s'
  | .ub => .ub
end M

instance : Monad (M σ) where
  pure := M.pure
  bind := M.bind

@[inline] def getS : M σ σ := fun s => .ok s s
@[inline] def setS (s : σ) : M σ Unit := fun _ => .ok () s
@[inline] def modS (f : σ → σ) : M σ Unit := fun s => .ok () (f s)
@[inline] def throwP (c : PanicClass) : M σ α := fun s => .panic c s
@[inline] def ubM : M σ α := fun _ => .ub

/-- Objects that can be owned, dropped or leaked. -/
inductive Obj (K V : Type) where
  | k (x : K)
  | v (x : V)

/-- Calls into user code and their observable payload. -/
inductive Event (K V Q : Type) where
  | dropK (k : K)
  | dropV (v : V)
  | cloneK (src dst : K)
  | cloneV (src dst : V)
  | eqK (a b : K) (r : Bool)
  | eqQ (a b : Q) (r : Bool)
  | eqV (a b : V) (r : Bool)
  | call (tag : Nat)          -- a user closure was invoked
  | pull                      -- source iterator `next`

/-- One `Map<K, V, N>`: `cap` = N; `slots i = none` means uninitialised or moved-out. -/
structure Raw (K V : Type) where
  cap : Nat
  len : Nat
  slots : Nat → Option (K × V)

def Raw.new (cap : Nat) : Raw K V := { cap := cap, len := 0, slots := fun _ => none }

/-- Everything outside the container that the code interacts with. -/
structure World (K V Q : Type) where
  profile : Profile := .debug
  inject : Option Nat := none       -- panic at the k-th callback from now
  unwinding : Bool := false         -- inside clean-up: injection is suppressed
  calls : Nat := 0                  -- callbacks made so far
  nextId : Nat := 0                 -- fresh-object counter for `clone`
  events : List (Event K V Q) := []
  leaked : List (Obj K V) := []     -- overwritten while live / lost

/-- User code: how `==` answers (as a function of the global call number, so
    that it may be non-reflexive, asymmetric and time-varying), `Borrow`, `Clone`.
    `vGlue = false` models `V = ()`: no drop glue, `Clone`/`==` are not callbacks. -/
structure Env (K V Q : Type) where
  eqK : Nat → K → K → Bool
  eqQ : Nat → Q → Q → Bool
  eqV : V → V → Bool
  borrow : K → Q
  clK : Nat → K → K
  clV : Nat → V → V
  vGlue : Bool := true

structure St (K V Q : Type) where
  r : Raw K V
  w : World K V Q

abbrev SM (K V Q : Type) (α : Type) := M (St K V Q) α

section Prims
variable {K V Q : Type}

/-- The single place where an injected panic fires. -/
def tick : SM K V Q Unit := fun s =>
  let w := s.w
  if w.unwinding then .ok () { s with w := { w with calls := w.calls + 1 } }
  else match w.inject with
    | some 0 => .panic .inject { s with w := { w with calls := w.calls + 1, inject := none } }
    | some (n + 1) => .ok () { s with w := { w with calls := w.calls + 1, inject := some n } }
    | none => .ok () { s with w := { w with calls := w.calls + 1 } }

@[inline] def logE (e : Event K V Q) : SM K V Q Unit :=
  modS fun s => { s with w := { s.w with events := s.w.events ++ [e] } }

@[inline] def leak (o : Obj K V) : SM K V Q Unit :=
  modS fun s => { s with w := { s.w with leaked := s.w.leaked ++ [o] } }

def St.setUnw (s : St K V Q) (b : Bool) : St K V Q :=
  { s with w := { s.w with unwinding := b } }

/-- Run `body`; if it unwinds, run `cleanup` (drops of the locals still owned)
    with injection suppressed, then continue unwinding.  A panic inside the
    clean-up would abort the process: modelled as `ub` (theorems exclude it). -/
def unwindWith (cleanup : SM K V Q Unit) (body : SM K V Q α) : SM K V Q α := fun s =>
  match body s with
  | .ok a s' => .ok a s'
  | .ub => .ub
  | .panic c s' =>
    match cleanup (s'.setUnw true) with
    | .ok _ s'' => .panic c (s''.setUnw s'.w.unwinding)
    | .panic _ _ => .ub
    | .ub => .ub

variable (E : Env K V Q)

def eqK (a b : K) : SM K V Q Bool := do
  tick
  let s ← getS
  let r := E.eqK s.w.calls a b
  logE (.eqK a b r)
  pure r

def eqQ (a b : Q) : SM K V Q Bool := do
  tick
  let s ← getS
  let r := E.eqQ s.w.calls a b
  logE (.eqQ a b r)
  pure r

def eqV (a b : V) : SM K V Q Bool :=
  if E.vGlue then do
    tick
    let r := E.eqV a b
    logE (.eqV a b r)
    pure r
  else pure true

/-- `Drop for K`: the object counts as destroyed even if its `drop` unwinds. -/
def dropK (k : K) : SM K V Q Unit := do
  logE (.dropK k)
  tick

def dropV (v : V) : SM K V Q Unit :=
  if E.vGlue then do
    logE (.dropV v)
    tick
  else pure ()

/-- Tuple drop glue: fields in order; if the first unwinds the second still runs. -/
def dropPair (p : K × V) : SM K V Q Unit := do
  unwindWith (dropV E p.2) (dropK p.1)
  dropV E p.2

def cloneK (k : K) : SM K V Q K := do
  tick
  let s ← getS
  let k' := E.clK s.w.nextId k
  setS { s with w := { s.w with nextId := s.w.nextId + 1 } }
  logE (.cloneK k k')
  pure k'

def cloneV (v : V) : SM K V Q V :=
  if E.vGlue then do
    tick
    let s ← getS
    let v' := E.clV s.w.nextId v
    setS { s with w := { s.w with nextId := s.w.nextId + 1 } }
    logE (.cloneV v v')
    pure v'
  else pure v

/-- `(K, V)::clone`: key then value; if the value's clone unwinds the fresh key is dropped. -/
def clonePair (p : K × V) : SM K V Q (K × V) := do
  let k' ← cloneK E p.1
  let v' ← unwindWith (dropK k') (cloneV E p.2)
  pure (k', v')

/-- A user closure is entered. -/
def callF (tag : Nat) : SM K V Q Unit := do
  tick
  logE (.call tag)

def pullSrc : SM K V Q Unit := do
  tick
  logE .pull

/-! ### container fields -/

@[inline] def getLen : SM K V Q Nat := fun s => .ok s.r.len s
@[inline] def getCap : SM K V Q Nat := fun s => .ok s.r.cap s
@[inline] def setLen (n : Nat) : SM K V Q Unit :=
  modS fun s => { s with r := { s.r with len := n } }
@[inline] def getProfile : SM K V Q Profile := fun s => .ok s.w.profile s

@[inline] def setSlot (r : Raw K V) (i : Nat) (o : Option (K × V)) : Raw K V :=
  { r with slots := fun j => if j = i then o else r.slots j }

/-! ### `MaybeUninit` primitives (unchecked: UB outside bounds or on a dead slot) -/

/-- `pairs.get_unchecked(i).assume_init_ref()` on a container `r` borrowed
    immutably (possibly another one than `self`). -/
def itemRefR (r : Raw K V) (i : Nat) : SM K V Q (K × V) := fun s =>
  if i < r.cap then
    match r.slots i with
    | some p => .ok p s
    | none => .ub
  else .ub

/-- `pairs.get_unchecked(i).assume_init_ref()` / `_mut()` on `self`. -/
def itemRef (i : Nat) : SM K V Q (K × V) := fun s => itemRefR s.r i s

/-- `assume_init_read()`: moves the pair out; the slot is dead afterwards. -/
def itemRead (i : Nat) : SM K V Q (K × V) := fun s =>
  if i < s.r.cap then
    match s.r.slots i with
    | some p => .ok p { s with r := setSlot s.r i none }
    | none => .ub
  else .ub

/-- `get_unchecked_mut(i).write(p)`: never drops the old content (a live one is leaked). -/
def itemWrite (i : Nat) (p : K × V) : SM K V Q Unit := fun s =>
  if i < s.r.cap then
    match s.r.slots i with
    | some old =>
      .ok () { r := setSlot s.r i (some p),
               w := { s.w with leaked := s.w.leaked ++ [.k old.1, .v old.2] } }
    | none => .ok () { s with r := setSlot s.r i (some p) }
  else .ub

/-- `assume_init_drop()`. -/
def itemDrop (i : Nat) : SM K V Q Unit := do
  let p ← itemRead i
  dropPair E p

/-- `&mut pairs[i].1` written through (`*v = x`, `mem::replace`): the slot must be live. -/
def valueReplace (i : Nat) (v : V) : SM K V Q V := fun s =>
  if i < s.r.cap then
    match s.r.slots i with
    | some p => .ok p.2 { s with r := setSlot s.r i (some (p.1, v)) }
    | none => .ub
  else .ub

/-- `mem::replace(pair, (k, v))` on a live slot. -/
def pairReplace (i : Nat) (p : K × V) : SM K V Q (K × V) := fun s =>
  if i < s.r.cap then
    match s.r.slots i with
    | some old => .ok old { s with r := setSlot s.r i (some p) }
    | none => .ub
  else .ub

/-! ### checked accesses (panic, never UB) -/

/-- `self.pairs[i].write(p)`: the bounds check of the index expression. -/
def checkedWrite (i : Nat) (p : K × V) : SM K V Q Unit := fun s =>
  if i < s.r.cap then itemWrite i p s else .panic .oob s

/-- `&self.pairs[..self.len]`: panics if `len > N`. -/
def sliceToLen : SM K V Q Nat := fun s =>
  if s.r.len ≤ s.r.cap then .ok s.r.len s else .panic .oob s

def debugAssert (c : Bool) (cls : PanicClass) : SM K V Q Unit := fun s =>
  match s.w.profile with
  | .debug => if c then .ok () s else .panic cls s
  | .release => .ok () s

def assertP (c : Bool) (cls : PanicClass) : SM K V Q Unit := fun s =>
  if c then .ok () s else .panic cls s

end Prims

end Micromap
