-- Root of the `Micromap` library: model, specs, proofs, property theorems.
import Micromap.Model.Basic
import Micromap.Model.Map
import Micromap.Model.Entry
import Micromap.Model.Iter
import Micromap.Model.Step
import Micromap.Model.Sys
import Micromap.Spec.StdFmt
