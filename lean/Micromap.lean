-- Root of the `Micromap` library: model, specs, proofs, property theorems.
import Micromap.Model.Basic
import Micromap.Model.Map
import Micromap.Model.Entry
import Micromap.Model.Iter
import Micromap.Model.Step
import Micromap.Model.Sys
import Micromap.Spec.StdFmt
import Micromap.Proofs.Sat
import Micromap.Proofs.Prims
import Micromap.Proofs.Lookup
import Micromap.Proofs.MapOps
import Micromap.Proofs.MapApi
import Micromap.Props.C03
