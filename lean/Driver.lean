/-
Line-protocol driver: reads operation lines on stdin, runs `Micromap.step`
(the very function the history theorems quantify over) and prints one trace
line per input line.  The harness (`/verif/harness`) prints the same grammar
from the real crate; `tools/compare.py` diffs the two streams.

usage: driver <debug|release>  < ops  > trace
-/
import Micromap.Model.Sys
import Micromap.Model.StdIter
import Micromap.Model.StdIterB

open Micromap

structure DKey where
  cls : Nat
  id : Nat
  deriving Repr, Inhabited

structure DVal where
  id : Nat
  val : Int
  deriving Repr, Inhabited

/-! ### the equality oracle shared bit-for-bit with the harness -/

def mix64 (x : UInt64) : UInt64 :=
  let x := (x ^^^ (x >>> 30)) * 0xbf58476d1ce4e5b9
  let x := (x ^^^ (x >>> 27)) * 0x94d049bb133111eb
  x ^^^ (x >>> 31)

def hashFields (seed : UInt64) (fs : List Nat) : UInt64 :=
  fs.foldl (fun h f => mix64 (h ^^^ (UInt64.ofNat f + 0x9e3779b97f4a7c15))) (mix64 (seed + 0x9e3779b97f4a7c15))

inductive EqMode where
  | lawful
  | table (seed : Nat)      -- fixed but arbitrary deviations from the lawful answer
  | stateful (seed : Nat)   -- deviations that also depend on the call number
  deriving Repr

def oracle (mode : EqMode) (kind : Nat) (callno : Nat) (a b : DKey) : Bool :=
  let lawful := a.cls == b.cls
  match mode with
  | .lawful => lawful
  | .table seed =>
    let h := hashFields (UInt64.ofNat seed) [kind, a.cls, a.id, b.cls, b.id]
    if h % 4 == 0 then !lawful else lawful
  | .stateful seed =>
    let h := hashFields (UInt64.ofNat seed) [kind, a.cls, a.id, b.cls, b.id, callno]
    if h % 4 == 0 then !lawful else lawful

def mkEnv (mode : EqMode) : Env DKey DVal DKey :=
  { eqK := fun n a b => oracle mode 1 n a b
    eqQ := fun n a b => oracle mode 2 n a b
    eqV := fun a b => a.val == b.val
    borrow := id
    clK := fun n k => { k with id := n }
    clV := fun n v => { v with id := n }
    vGlue := true }

def render : Render DKey DVal :=
  { dbgK := fun alt k => if alt then s!"K(\n    {k.cls},\n    {k.id},\n)" else s!"K{k.cls}.{k.id}"
    dbgV := fun alt v => if alt then s!"V(\n    {v.id},\n    {v.val},\n)" else s!"V{v.id}.{v.val}"
    dspK := fun k => s!"k{k.cls}.{k.id}"
    dspV := fun v => s!"v{v.id}.{v.val}" }

/-! ### printing -/

def pK (k : DKey) : String := s!"K{k.cls}.{k.id}"
def pV (v : DVal) : String := s!"V{v.id}.{v.val}"

def escStr (s : String) : String :=
  String.join (s.toList.map fun c =>
    if c == '\n' then "\\n" else if c == ' ' then "~" else String.singleton c)

partial def pRV : RV DKey DVal → String
  | .unit => "()"
  | .none => "-"
  | .bool b => if b then "1" else "0"
  | .nat n => toString n
  | .key k => pK k
  | .val v => pV v
  | .pair k v => pK k ++ ":" ++ pV v
  | .ref s x => s!"@{s}=" ++ pRV x
  | .oref o s x => s!"@{o}.{s}=" ++ pRV x
  | .some x => "+" ++ pRV x
  | .list l => "[" ++ String.intercalate "," (l.map pRV) ++ "]"
  | .hint lo hi => s!"{lo}.." ++ (match hi with | some h => toString h | none => "*")
  | .str s => "\"" ++ escStr s ++ "\""
  | .tag s => s

def pEvent : Event DKey DVal DKey → String
  | .dropK k => s!"dk{k.id}"
  | .dropV v => s!"dv{v.id}"
  | .cloneK a b => s!"ck{a.id}>{b.id}"
  | .cloneV a b => s!"cv{a.id}>{b.id}"
  | .eqK a b r => s!"ek{a.id}:{b.id}={if r then 1 else 0}"
  | .eqQ a b r => s!"eq{a.id}:{b.id}={if r then 1 else 0}"
  | .eqV a b r => s!"ev{a.id}:{b.id}={if r then 1 else 0}"
  | .call t => s!"c{t}"
  | .pull => "p"

def pList (xs : List String) : String :=
  if xs.isEmpty then "-" else String.intercalate "," xs

def pClass : PanicClass → String
  | .overflow => "overflow" | .oob => "oob" | .noentry => "noentry"
  | .overlap => "overlap" | .capacity => "capacity" | .inject => "inject"

def pOutcome : Outcome → String
  | .ok => "ok" | .panic c => "panic:" ++ pClass c | .ub => "UB"

def snapMap (r : Raw DKey DVal) : String :=
  let items := (List.range r.len).map fun i =>
    match r.slots i with
    | some p => pK p.1 ++ ":" ++ pV p.2
    | none => "DEAD"
  s!"{r.len}/{r.cap}/{if r.len == 0 then 1 else 0}[" ++ String.intercalate "," items ++ "]"

def snapSet (r : Raw DKey Unit) : String :=
  let items := (List.range r.len).map fun i =>
    match r.slots i with
    | some p => pK p.1
    | none => "DEAD"
  s!"{r.len}/{r.cap}/{if r.len == 0 then 1 else 0}[" ++ String.intercalate "," items ++ "]"

def pObj : Obj DKey DVal → String
  | .k x => s!"k{x.id}"
  | .v x => s!"v{x.id}"

def objId : Obj DKey DVal → Nat × Nat
  | .k x => (0, x.id)
  | .v x => (1, x.id)

def sortObjs (l : List (Obj DKey DVal)) : List (Obj DKey DVal) :=
  (l.toArray.qsort fun a b =>
    let x := objId a; let y := objId b
    x.2 < y.2 || (x.2 == y.2 && x.1 < y.1)).toList

/-! ### parsing -/

def parseNat? (s : String) : Option Nat := s.toNat?
def parseInt? (s : String) : Option Int := s.toInt?

def parseKey? (s : String) : Option DKey :=
  match s.splitOn "#" with
  | [a, b] => do pure { cls := ← a.toNat?, id := ← b.toNat? }
  | _ => none

def parseVal? (s : String) : Option DVal :=
  match s.splitOn "#" with
  | [a, b] => do pure { id := ← a.toNat?, val := ← b.toInt? }
  | _ => none

def parseProbe? (s : String) : Option (Probe DKey DKey) :=
  if s.startsWith "k:" then (parseKey? (s.drop 2).toString).map .key
  else if s.startsWith "q:" then (parseKey? (s.drop 2).toString).map .q
  else none

/-- `[a,b,c]` → items. -/
def parseList? (s : String) : Option (List String) :=
  if s.startsWith "[" && s.endsWith "]" then
    let inner := ((s.drop 1).dropEnd 1).toString
    if inner.isEmpty then some [] else some (inner.splitOn ",")
  else none

def parsePairs? (s : String) : Option (List (DKey × DVal)) := do
  let items ← parseList? s
  items.mapM fun it =>
    match it.splitOn "=" with
    | [a, b] => do pure (← parseKey? a, ← parseVal? b)
    | _ => none

def parseKeys? (s : String) : Option (List DKey) := do
  (← parseList? s).mapM parseKey?

def parseScript? (s : String) : Option (List IterCmd) :=
  if s == "-" then some [] else
  s.toList.mapM fun c =>
    match c with
    | 'n' => some .next | 'l' => some .len | 'h' => some .hint | 'd' => some .debug
    | 'D' => some .debugAlt | 'c' => some .clone | 'x' => some .count | 'f' => some .fold
    | _ => none

/-- a script with std's provided methods: `t<digit>` = `nth(digit)`, `z` = `last()`. -/
def parseScriptX? (s : String) : Option (List IterCmdX) :=
  if s == "-" then some [] else go s.toList
where
  go : List Char → Option (List IterCmdX)
    | [] => some []
    | 't' :: d :: cs =>
      if d.isDigit then (go cs).map (IterCmdX.nth (d.toNat - '0'.toNat) :: ·) else none
    | 'z' :: cs => (go cs).map (IterCmdX.last :: ·)
    | c :: cs => do
      let b ← parseScript? (String.singleton c)
      pure (b.map IterCmdX.base ++ (← go cs))

def addVal (n : Int) : DVal → DVal := fun v => { v with val := v.val + n }

def parseReg? (s : String) : Option (Bool × Nat) :=
  match s with
  | "m0" => some (true, 0) | "m1" => some (true, 1)
  | "s0" => some (false, 0) | "s1" => some (false, 1)
  | _ => none

def parseEnd? (s : String) : Option Bool :=
  match s with | "drop" => some false | "forget" => some true | _ => none

def parseFmt? (s : String) : Option FmtKind :=
  match s with
  | "debug" => some .debug | "debug#" => some .debugAlt | "display" => some .display
  | "display>" => some .displayPad | "display#" => some .displayAlt | "debug>" => some .debugPad | _ => none

def parseEntryEnd? (s : String) : Option (EntryEnd DVal) :=
  match s.splitOn ":" with
  | ["oi", v] => (parseVal? v).map .or_insert
  | ["oiw", v] => (parseVal? v).map .or_insert_with
  | ["oiwk", v] => (parseVal? v).map .or_insert_with_key
  | ["od", v] => (parseVal? v).map .or_default
  | ["key"] => some .key
  | ["drop"] => some .drop
  | ["o.key"] => some .occ_key
  | ["o.get"] => some .occ_get
  | ["o.get_mut", n] => (parseInt? n).map fun n => .occ_get_mut (addVal n)
  | ["o.insert", v] => (parseVal? v).map .occ_insert
  | ["o.remove"] => some .occ_remove
  | ["o.remove_entry"] => some .occ_remove_entry
  | ["o.into_mut"] => some .occ_into_mut
  | ["v.key"] => some .vac_key
  | ["v.into_key"] => some .vac_into_key
  | ["v.insert", v] => (parseVal? v).map .vac_insert
  | _ => none

def retainFn (mask : Nat) (bump : Int) : Nat → DKey → DVal → Bool × DVal :=
  fun n k v =>
    -- masks >= 65536: a STATEFUL predicate, the answer depends on the call number
    let keep := if mask ≥ 65536 then (mask >>> (n % 16)) % 2 == 1 else (mask >>> k.cls) % 2 == 1
    (keep, if keep then { v with val := v.val + bump } else v)

def parseMapOp? (args : List String) : Option (MapOp DKey DVal DKey) :=
  match args with
  | ["insert", k, v] => do pure (.insert (← parseKey? k) (← parseVal? v))
  | ["insert_key_value", k, v] => do pure (.insert_key_value (← parseKey? k) (← parseVal? v))
  | ["checked_insert", k, v] => do pure (.checked_insert (← parseKey? k) (← parseVal? v))
  | ["insert_unchecked", k, v] => do pure (.insert_unchecked (← parseKey? k) (← parseVal? v))
  | ["get", p] => (parseProbe? p).map .get
  | ["get_key_value", p] => (parseProbe? p).map .get_key_value
  | ["get_mut", p, n] => do pure (.get_mut (← parseProbe? p) (addVal (← parseInt? n)))
  | ["contains_key", p] => (parseProbe? p).map .contains_key
  | ["index", p] => (parseProbe? p).map .index
  | ["index_mut", p, n] => do pure (.index_mut (← parseProbe? p) (addVal (← parseInt? n)))
  | ["remove", p] => (parseProbe? p).map .remove
  | ["remove_entry", p] => (parseProbe? p).map .remove_entry
  | ["retain", m, b] => do pure (.retain (retainFn (← parseNat? m) (← parseInt? b)))
  | ["clear"] => some .clear
  | ["len"] => some .len
  | ["is_empty"] => some .is_empty
  | ["capacity"] => some .capacity
  | ["drain", t, e] => do pure (.drain (← parseNat? t) (← parseEnd? e))
  | ["into_iter", kind, t, e] => do
    let kind ← match kind with
      | "pairs" => some IntoKind.pairs | "keys" => some .keys | "values" => some .values
      | _ => none
    pure (.into_iter kind (← parseNat? t) (← parseEnd? e))
  | ["iter", kind, n, script] => do
    let kind ← match kind with
      | "iter" => some IterKind.iter | "keys" => some .keys | "values" => some .values
      | "iter_mut" => some .iter_mut | "values_mut" => some .values_mut | _ => none
    pure (.iter kind (addVal (← parseInt? n)) (← parseScript? script))
  | ["clone", dst] => do
    let (isMap, i) ← parseReg? dst
    if isMap then pure (.clone_to i) else none
  -- `dst.clone_from(&self)`: micromap does not override `Clone::clone_from`, so this is std's
  -- default `*dst = self.clone()` — the same model operation as `clone`
  | ["clone_from", dst] => do
    let (isMap, i) ← parseReg? dst
    if isMap then pure (.clone_to i) else none
  | ["eq", o] => do
    let (isMap, i) ← parseReg? o
    if isMap then pure (.eq i) else none
  | ["from_iter", pulls, xs] => do pure (.from_iter (pulls != "0") (← parsePairs? xs))
  | ["entry", k, mods, fin] => do
    let ms ← (← parseList? mods).mapM parseInt?
    pure (.entry (← parseKey? k) (ms.map addVal) (← parseEntryEnd? fin))
  | ["gdm", n, ks] => do
    pure (.get_disjoint_mut false (addVal (← parseInt? n)) (← (← parseList? ks).mapM parseProbe?))
  | ["gdum", n, ks] => do
    pure (.get_disjoint_mut true (addVal (← parseInt? n)) (← (← parseList? ks).mapM parseProbe?))
  | ["fmt", k] => (parseFmt? k).map .fmt
  | ["drop"] => some .drop
  | ["forget"] => some .forget
  | ["with_capacity", c] => (parseNat? c).map .with_capacity
  | ["serde", dst] => do
    let (isMap, i) ← parseReg? dst
    if isMap then pure (.serde i) else none
  -- the same round trip through another serde format (the recorded data-model calls, with a
  -- `size_hint` behaviour of the deserializer): the crate's code does not look at the format
  | ["serde", dst, _fmt] => do
    let (isMap, i) ← parseReg? dst
    if isMap then pure (.serde i) else none
  | _ => none

def parseSetReg? (s : String) : Option Nat := do
  let (isMap, i) ← parseReg? s
  if isMap then none else pure i

def parseSetOp? (args : List String) : Option (SetOp DKey DKey) :=
  match args with
  | ["insert", k] => (parseKey? k).map .insert
  | ["replace", k] => (parseKey? k).map .replace
  | ["contains", p] => (parseProbe? p).map .contains
  | ["get", p] => (parseProbe? p).map .get
  | ["remove", p] => (parseProbe? p).map .remove
  | ["take", p] => (parseProbe? p).map .take
  | ["retain", m] => do
    let m ← parseNat? m
    pure (.retain fun n k => if m ≥ 65536 then (m >>> (n % 16)) % 2 == 1 else (m >>> k.cls) % 2 == 1)
  | ["clear"] => some .clear
  | ["len"] => some .len
  | ["is_empty"] => some .is_empty
  | ["capacity"] => some .capacity
  | ["drain", t, e] => do pure (.drain (← parseNat? t) (← parseEnd? e))
  | ["into_iter", t, e] => do pure (.into_iter (← parseNat? t) (← parseEnd? e))
  | ["iter", script] => (parseScript? script).map .iter
  | ["clone", dst] => (parseSetReg? dst).map .clone_to
  | ["clone_from", dst] => (parseSetReg? dst).map .clone_to
  | ["serde", dst] => (parseSetReg? dst).map .serde
  | ["serde", dst, _fmt] => (parseSetReg? dst).map .serde
  | ["eq", o] => (parseSetReg? o).map .eq
  | ["from_iter", pulls, xs] => do pure (.from_iter (pulls != "0") (← parseKeys? xs))
  | ["extend", pulls, xs] => do pure (.extend (pulls != "0") (← parseKeys? xs))
  | ["extend_from", o] => (parseSetReg? o).map .extend_from
  | ["alg", kind, o, script] => do
    let kind ← match kind with
      | "difference" => some AlgKind.difference | "intersection" => some .intersection
      | "union" => some .union | "symmetric_difference" => some .symmetric_difference
      | _ => none
    pure (.alg kind (← parseSetReg? o) (← parseScript? script))
  | ["is_subset", o] => (parseSetReg? o).map .is_subset
  | ["is_superset", o] => (parseSetReg? o).map .is_superset
  | ["is_disjoint", o] => (parseSetReg? o).map .is_disjoint
  | ["sub", o, dst] => do pure (.sub (← parseSetReg? o) (← parseSetReg? dst))
  | ["fmt", k] => (parseFmt? k).map .fmt
  | ["drop"] => some .drop
  | ["forget"] => some .forget
  | _ => none

/-- the same operation text read as an operation on a `Map<Key, (), N>`: values are `()`, writes
    through `&mut ()` are no-ops (glue, not part of the model). -/
def endToUnit : EntryEnd DVal → EntryEnd Unit
  | .or_insert _ => .or_insert () | .or_insert_with _ => .or_insert_with ()
  | .or_insert_with_key _ => .or_insert_with_key () | .or_default _ => .or_default ()
  | .key => .key | .drop => .drop | .occ_key => .occ_key | .occ_get => .occ_get
  | .occ_get_mut _ => .occ_get_mut id | .occ_insert _ => .occ_insert () | .occ_remove => .occ_remove
  | .occ_remove_entry => .occ_remove_entry | .occ_into_mut => .occ_into_mut
  | .vac_key => .vac_key | .vac_into_key => .vac_into_key | .vac_insert _ => .vac_insert ()

def mapOpToUnit : MapOp DKey DVal DKey → MapOp DKey Unit DKey
  | .insert k _ => .insert k () | .insert_key_value k _ => .insert_key_value k ()
  | .checked_insert k _ => .checked_insert k () | .insert_unchecked k _ => .insert_unchecked k ()
  | .get p => .get p | .get_key_value p => .get_key_value p | .get_mut p _ => .get_mut p id
  | .contains_key p => .contains_key p | .index p => .index p | .index_mut p _ => .index_mut p id
  | .remove p => .remove p | .remove_entry p => .remove_entry p
  | .retain f => .retain fun n k u => ((f n k ⟨0, 0⟩).1, u)
  | .clear => .clear | .len => .len | .is_empty => .is_empty | .capacity => .capacity
  | .drain t f => .drain t f | .into_iter k t f => .into_iter k t f
  | .iter kind _ script => .iter kind id script
  | .clone_to d => .clone_to d | .eq o => .eq o
  | .from_iter p xs => .from_iter p (xs.map fun x => (x.1, ()))
  | .entry k mods fin => .entry k (mods.map fun _ => id) (endToUnit fin)
  | .get_disjoint_mut u _ ks => .get_disjoint_mut u id ks
  | .fmt k => .fmt k | .drop => .drop | .forget => .forget | .with_capacity c => .with_capacity c
  | .serde d => .serde d

def parseOp? (toks : List String) : Option (Op DKey DVal DKey) :=
  match toks with
  | ["end"] => some .endCase
  | ["inject", j] => (parseNat? j).map .inject
  | "u0" :: args => do pure (.umap 0 (mapOpToUnit (← parseMapOp? args)))
  | "u1" :: args => do pure (.umap 1 (mapOpToUnit (← parseMapOp? args)))
  | reg :: args => do
    let (isMap, i) ← parseReg? reg
    if isMap then pure (.map i (← parseMapOp? args)) else
      let sop ← parseSetOp? args
      -- `sN extend_from sN` cannot be written in Rust (a set cannot be moved into its own `&mut self`
      -- method; the model ignores such an operation): not an operation line, as before
      match sop with
      | .extend_from o => if o == i then none else pure (.set i sop)
      | _ => pure (.set i sop)
  | _ => none


/-! ### std's provided iterator methods on drains / consuming iterators

`nth(k)`, `last()`, `count()` and `size_hint()` are not functions of the crate for these iterator
types unless it overrides them (tools/inventory.json lists which it does): they are std's provided
methods, defined in terms of `next()`.  The driver expresses them by the model's `drain` /
`into_iter` operations:
  * `tK` (`nth(K)`): `K+1` calls of `next`; std drops the first `K` results at once,
  * `z` (`last()`): `next` until the end; std drops every result but the last,
  * end `count`: the iterator is consumed, the remaining elements are destroyed (as by `drop`) and
    their number is returned,
  * `size_hint()` of an exact-size iterator is `(len, Some(len))`.
Only used where `next` itself has no effects (pairs, drains, sets), so that the drops made by std
come first in the effect trace. -/
structure Sugar where
  nth : Option Nat := none
  last : Bool := false
  count : Bool := false
  consume : Bool := false

def desugar (toks : List String) : List String × Sugar :=
  let fix (pre : List String) (t e : String) : List String × Sugar :=
    let (t', sg) : String × Sugar :=
      if t == "z" then ("1000000", { last := true, consume := true })
      else if t.startsWith "t" then
        match (t.drop 1).toString.toNat? with
        | some k => (toString (k + 1), { nth := some k, consume := true })
        | none => (t, { consume := true })
      else (t, { consume := true })
    let (e', sg) := if e == "count" then ("drop", { sg with count := true }) else (e, sg)
    (pre ++ [t', e'], sg)
  match toks with
  | [reg, "drain", t, e] => fix [reg, "drain"] t e
  | [reg, "into_iter", t, e] => fix [reg, "into_iter"] t e
  | [reg, "into_iter", kind, t, e] => fix [reg, "into_iter", kind] t e
  | _ => (toks, {})

def dropEventsOf : RV DKey DVal → List (Event DKey DVal DKey)
  | .pair k v => [.dropK k, .dropV v]
  | .key k => [.dropK k]
  | .val v => [.dropV v]
  | _ => []

def applySugar (sg : Sugar) (isUnit : Bool) (o : Out DKey DVal DKey) : Out DKey DVal DKey :=
  if !sg.consume then o else
  match o.outcome, o.ret with
  | .ok, .list (.list items :: .nat rem :: more) =>
    let (skipped, items') :=
      if sg.last then (items.dropLast, items.getLast?.toList)
      else match sg.nth with
        | some k => (items.take k, items.drop k)
        | none => ([], items)
    let dropEv := (skipped.flatMap dropEventsOf).filter fun e =>
      match e with | .dropV _ => !isUnit | _ => true
    let ret' : RV DKey DVal :=
      if sg.last then .list [.list items', .tag "consumed"]
      else .list ([.list items', .nat rem] ++ more ++ [.hint rem (some rem)] ++
        (if sg.count then [.nat rem] else []))
    { o with ret := ret', events := dropEv ++ o.events, calls := o.calls + dropEv.length }
  | _, _ => o


/-! ### operations composed in the driver from model functions

Crate items that are the SAME code as a modelled function at another type instance (sets of
references) or std glue around modelled functions.  They are run here through the model's own
definitions; nothing is re-defined. -/

/-- the generic branch of `Micromap.step` for a computation composed in the driver. -/
def customStep (sys : Sys DKey DVal DKey) (tm ts : List Nat)
    (f : Sys DKey DVal DKey → Res (Sys DKey DVal DKey) (RV DKey DVal)) :
    Sys DKey DVal DKey × Out DKey DVal DKey :=
  let calls0 := sys.w.calls
  let sys0 : Sys DKey DVal DKey := { sys with w := { sys.w with events := [] } }
  match f sys0 with
  | .ok r s =>
    ({ s with w := { s.w with inject := none } },
     { outcome := .ok, ret := r, events := s.w.events, calls := s.w.calls - calls0,
       touchedMaps := tm, touchedSets := ts })
  | .panic c s =>
    ({ s with w := { s.w with inject := none } },
     { outcome := .panic c, ret := .unit, events := s.w.events, calls := s.w.calls - calls0,
       touchedMaps := tm, touchedSets := ts })
  | .ub => (sys0, { outcome := .ub, ret := .unit, events := [], calls := 0, touchedMaps := tm, touchedSets := ts })

def keysOfRaw' (r : Raw DKey Unit) : List DKey :=
  (List.range r.len).filterMap fun i => (r.slots i).map (·.1)

/-- `Default for Map / Set / Iter / IterMut / Keys / Values / ValuesMut / IntoIter / IntoKeys /
    IntoValues`: the empty container (`Raw.new cap`) and the model's iterators over it; reported as
    `[len, capacity, (next, len) per iterator]`. -/
def defaultsStep (E : Env DKey DVal DKey) (sys : Sys DKey DVal DKey) (isMap : Bool) (i : Nat) :
    Sys DKey DVal DKey × Out DKey DVal DKey :=
  customStep sys (if isMap then [i] else []) (if isMap then [] else [i]) fun sys0 =>
    if isMap then
      let cap := (sys0.maps i).cap
      let st0 : St DKey DVal DKey := ⟨Raw.new cap, sys0.w⟩
      let borrow (kind : IterKind) : List (RV DKey DVal) :=
        match iterOp render kind id [.next, .len] st0 with
        | .ok l _ => l | _ => [.tag "?"]
      let owning (kind : IntoKind) : List (RV DKey DVal) :=
        match intoIterOp E kind 1 false st0 with
        | .ok (items, rem, _) _ => [if items.isEmpty then .none else .tag "+", .nat rem]
        | _ => [.tag "?"]
      .ok (.list ([.nat st0.r.len, .nat st0.r.cap] ++ borrow .iter ++ borrow .keys ++ borrow .values ++
        borrow .iter_mut ++ borrow .values_mut ++ owning .pairs ++ owning .keys ++ owning .values)) sys0
    else
      let r : Raw DKey Unit := Raw.new (sys0.sets i).cap
      .ok (.list [.nat r.len, .nat r.cap]) sys0

/-- `Extend<&T> for Set<T, N>` (`T: Copy`): `self.extend(iter.copied())`.  Run on a scratch set of
    plain numbers (class = the number, lawful equality whatever the case says, no drop glue, no
    instrumentation): the model's `insert` for the initial elements, then `extendLoop`. -/
def extendRefStep (sys : Sys DKey DVal DKey) (i : Nat) (init xs : List Nat) :
    Sys DKey DVal DKey × Out DKey DVal DKey :=
  let F := (mkEnv .lawful).toUnit
  let mk (c : Nat) : DKey × Unit := (⟨c, 0⟩, ())
  let w : World DKey Unit DKey := ({ profile := sys.w.profile, nextId := 100000 } : World DKey DVal DKey).toUnit
  let prog : SM DKey Unit DKey Unit := do
    for x in init do
      let _ ← insert F (mk x).1 ()
    extendLoop F false (xs.map mk)
  let out (oc : Outcome) (r : RV DKey DVal) : Out DKey DVal DKey :=
    { outcome := oc, ret := r, events := [], calls := 0, touchedSets := [i] }
  match prog ⟨Raw.new (sys.sets i).cap, w⟩ with
  | .ok _ s => (sys, out .ok (.list [.nat s.r.len, .list ((keysOfRaw' s.r).map fun k => .nat k.cls)]))
  | .panic c _ => (sys, out (.panic c) .unit)
  | .ub => (sys, out .ub .unit)

/-- `clone()` of a container of plain elements (no destructor, counting `Clone`): the model's
    `insert` builds the source on a scratch register, `cloneInto` clones it; reported are `len` of
    the clone, the numbers of key and value clone callbacks, the clone's entries and `clone == src`
    (the model's `mapEq`). -/
def clonePlainStep (sys : Sys DKey DVal DKey) (isMap : Bool) (i : Nat) (xs : List (Nat × Nat)) :
    Sys DKey DVal DKey × Out DKey DVal DKey :=
  let w0 : World DKey DVal DKey := { profile := sys.w.profile, nextId := 100000 }
  let out (oc : Outcome) (r : RV DKey DVal) : Out DKey DVal DKey :=
    { outcome := oc, ret := r, events := [], calls := 0,
      touchedMaps := if isMap then [i] else [], touchedSets := if isMap then [] else [i] }
  let count (ev : List (Event DKey DVal DKey)) : Nat × Nat :=
    ev.foldl (fun (a : Nat × Nat) e => match e with
      | .cloneK _ _ => (a.1 + 1, a.2) | .cloneV _ _ => (a.1, a.2 + 1) | _ => a) (0, 0)
  if isMap then
    let E := mkEnv .lawful
    let cap := (sys.maps i).cap
    let build : SM DKey DVal DKey Unit := do
      for (k, v) in xs do
        let _ ← insert E ⟨k, 0⟩ ⟨0, v⟩
    match build ⟨Raw.new cap, w0⟩ with
    | .ok _ s1 =>
      match cloneInto E s1.r ⟨Raw.new cap, { s1.w with events := [] }⟩ with
      | .ok _ s2 =>
        let (kc, vc) := count s2.w.events
        let ents := (List.range s2.r.len).filterMap fun j => s2.r.slots j
        let eq := match mapEq E s2.r s1.r s2 with | .ok b _ => b | _ => false
        (sys, out .ok (.list [.nat s2.r.len, .nat kc, .nat vc,
          .list (ents.map fun p => .tag s!"{p.1.cls}:{p.2.val}"), .bool eq]))
      | .panic c _ => (sys, out (.panic c) .unit)
      | .ub => (sys, out .ub .unit)
    | .panic c _ => (sys, out (.panic c) .unit)
    | .ub => (sys, out .ub .unit)
  else
    let F := (mkEnv .lawful).toUnit
    let cap := (sys.sets i).cap
    let build : SM DKey Unit DKey Unit := do
      for (k, _) in xs do
        let _ ← insert F ⟨k, 0⟩ ()
    match build ⟨Raw.new cap, w0.toUnit⟩ with
    | .ok _ s1 =>
      match cloneInto F s1.r ⟨Raw.new cap, { s1.w with events := [] }⟩ with
      | .ok _ s2 =>
        let kc := (s2.w.events.filter fun e => match e with | .cloneK _ _ => true | _ => false).length
        let eq := match mapEq F s2.r s1.r s2 with | .ok b _ => b | _ => false
        (sys, out .ok (.list [.nat s2.r.len, .nat kc, .nat 0,
          .list ((keysOfRaw' s2.r).map fun k => .nat k.cls), .bool eq]))
      | .panic c _ => (sys, out (.panic c) .unit)
      | .ub => (sys, out .ub .unit)
    | .panic c _ => (sys, out (.panic c) .unit)
    | .ub => (sys, out .ub .unit)

/-- serde round trip of a container of `k` insertions of THE zero-sized value: the model's
    `insert`, `serializeR` (announced length and one token per entry), `deserializeInto`. -/
def serdeZstStep (sys : Sys DKey DVal DKey) (isMap : Bool) (i k : Nat) :
    Sys DKey DVal DKey × Out DKey DVal DKey :=
  let F := (mkEnv .lawful).toUnit
  let w0 : World DKey Unit DKey := ({ profile := sys.w.profile, nextId := 100000 } : World DKey DVal DKey).toUnit
  let cap := if isMap then (sys.maps i).cap else (sys.sets i).cap
  let out (oc : Outcome) (r : RV DKey DVal) : Out DKey DVal DKey :=
    { outcome := oc, ret := r, events := [], calls := 0,
      touchedMaps := if isMap then [i] else [], touchedSets := if isMap then [] else [i] }
  let build : SM DKey Unit DKey Unit := do
    for _ in List.range k do
      let _ ← insert F ⟨0, 0⟩ ()
  match build ⟨Raw.new cap, w0⟩ with
  | .ok _ s1 =>
    match serializeR (Q := DKey) s1.r s1 with
    | .ok toks s2 =>
      match deserializeInto F toks ⟨Raw.new cap, s2.w⟩ with
      | .ok _ s3 =>
        let ann : RV DKey DVal := match toks with | .start (some n) :: _ => .nat n | _ => .none
        (sys, out .ok (.list [ann, .nat (toks.filter Tok.isEntry).length, .nat s3.r.len]))
      | .panic c _ => (sys, out (.panic c) .unit)
      | .ub => (sys, out .ub .unit)
    | .panic c _ => (sys, out (.panic c) .unit)
    | .ub => (sys, out .ub .unit)
  | .panic c _ => (sys, out (.panic c) .unit)
  | .ub => (sys, out .ub .unit)

def keysOfRaw (r : Raw DKey Unit) : List (DKey × Unit) :=
  (List.range r.len).filterMap fun i => r.slots i

/-- `Set<&T, N>::difference_ref`: both operands are first collected into sets of references
    (`FromIterator`, i.e. the model's `from_iter` on the same key objects — references have no
    drop glue, so the scratch sets are simply discarded), then `DifferenceRef` is `Difference`
    at `T = &Key` (the model's `algOpX .difference`, which is `algOp .difference` on scripts
    without `nth` / `last`: `StdIterB.algOpX_base`). -/
def diffRefStep (E : Env DKey DVal DKey) (sys : Sys DKey DVal DKey) (i o : Nat) (script : List IterCmdX) :
    Sys DKey DVal DKey × Out DKey DVal DKey :=
  customStep sys [] [i, o] fun sys0 =>
    let a := sys0.sets i
    let b := sys0.sets o
    let F := E.toUnit
    match from_iter F false (keysOfRaw a) ⟨Raw.new a.cap, sys0.w.toUnit⟩ with
    | .ub => .ub
    | .panic c s => .panic c { sys0 with w := sys0.w.mergeUnit s.w }
    | .ok _ s1 =>
      match from_iter F false (keysOfRaw b) ⟨Raw.new b.cap, s1.w⟩ with
      | .ub => .ub
      | .panic c s => .panic c { sys0 with w := sys0.w.mergeUnit s.w }
      | .ok _ s2 =>
        match algOpX F render.dbgK .difference s1.r s2.r script ⟨s1.r, s2.w⟩ with
        | .ub => .ub
        | .panic c s => .panic c { sys0 with w := sys0.w.mergeUnit s.w }
        | .ok l s3 => .ok (RV.castU (.list l)) { sys0 with w := sys0.w.mergeUnit s3.w }


/-- `Deserialize` from a token stream given in the operation line — entries in the given order, with
    repeats if the line has them (a stream the crate's own `Serialize` never writes, but any other
    producer may) — into the register, as `m0 serde m1` does with the stream of `serializeR`: the
    model's `deserializeInto` on a scratch container of the register's capacity, then assignment. -/
def deserStep (E : Env DKey DVal DKey) (sys : Sys DKey DVal DKey) (isMap : Bool) (i : Nat)
    (xs : List (Nat × Int)) : Sys DKey DVal DKey × Out DKey DVal DKey :=
  if isMap then
    let toks : List (Tok DKey DVal) :=
      .start (some xs.length) :: xs.map (fun p => Tok.entry ⟨p.1, 0⟩ ⟨0, p.2⟩) ++ [.fin]
    customStep sys [i] [] fun sys0 =>
      match assignMap E sys0 i (sys0.maps i).cap (deserializeInto E toks) with
      | .ok _ s' => .ok (tokSummary toks) s' | .panic c s' => .panic c s' | .ub => .ub
  else
    let toks : List (Tok DKey Unit) :=
      .start (some xs.length) :: xs.map (fun p => Tok.entry ⟨p.1, 0⟩ ()) ++ [.fin]
    customStep sys [] [i] fun sys0 =>
      match assignSet E sys0 i (sys0.sets i).cap (deserializeInto E.toUnit toks) with
      | .ok _ s' => .ok (tokSummary toks).castU s' | .panic c s' => .panic c s' | .ub => .ub


/-! ### `nth(k)`, `last()`, `count()` on drains / consuming iterators: `Model/StdIter.lean`

Lines whose take is `tK` / `tM` (`nth(K)` / `nth(usize::MAX)`) / `z` (`last()`) or whose end is
`count` run the model's `intoIterStdOp` / `drainStdOp` — std's provided methods written over the
model's `next`, with the drops std makes between the calls and the iterator dropped when one of
them unwinds.  Plain lines (`n` calls of `next`, then drop / forget) go through `Micromap.step`. -/
def parseStdTake? (t : String) : Option StdTake :=
  if t == "z" then some .last
  else if t == "tM" then some (.nth 4000000000)        -- usize::MAX: beyond every length
  else if t.startsWith "t" then (t.drop 1).toString.toNat?.map .nth
  else t.toNat?.map .next

def parseStdEnd? (e : String) : Option StdEnd :=
  match e with | "drop" => some .drop | "forget" => some .forget | "count" => some .count | _ => none

def isStd (t : StdTake) (e : StdEnd) : Bool :=
  match t, e with
  | .next _, .drop => false | .next _, .forget => false | _, _ => true

def parseIntoKind? (s : String) : Option IntoKind :=
  match s with | "pairs" => some .pairs | "keys" => some .keys | "values" => some .values | _ => none

/-- the value tree the harness prints: `[[items], len, (debug,) size_hint (, count)]`, or
    `[[items], consumed]` after `last()`. -/
def stdRet {V' : Type} (take : StdTake) (items : List (RV DKey V')) (rem : Nat) (dbg : Option String)
    (cnt : Option Nat) : RV DKey V' :=
  match take with
  | .last => .list [.list items, .tag "consumed"]
  | _ => .list ([.list items, .nat rem] ++ (dbg.map fun d => [RV.str d]).getD [] ++ [.hint rem (some rem)] ++
      (cnt.map fun c => [RV.nat c]).getD [])

def stdConsumeStep (E : Env DKey DVal DKey) (sys : Sys DKey DVal DKey) (toks : List String) :
    Option (Sys DKey DVal DKey × Out DKey DVal DKey) := do
  let (reg, isDrain, kindS, t, e) ← (match toks with
    | [reg, "drain", t, e] => some (reg, true, "pairs", t, e)
    | [reg, "into_iter", kind, t, e] => some (reg, false, kind, t, e)
    | [reg, "into_iter", t, e] => some (reg, false, "keys", t, e)
    | _ => none)
  let take ← parseStdTake? t
  let fin ← parseStdEnd? e
  if !isStd take fin then none
  let kind ← parseIntoKind? kindS
  let ik : IterKind := match kind with | .pairs => .iter | .keys => .keys | .values => .values
  let proj {V' : Type} (k : IntoKind) (p : DKey × V') : RV DKey V' :=
    match k with | .pairs => .pair p.1 p.2 | .keys => .key p.1 | .values => .val p.2
  match reg with
  | "m0" | "m1" =>
    let i := if reg == "m0" then 0 else 1
    pure (customStep sys [i] [] fun sys0 =>
      match runOnMap sys0 i (if isDrain then drainStdOp E take fin else intoIterStdOp E kind take fin) with
      | .ok (items, rem, rest, cnt) s =>
        .ok (stdRet take (items.map (proj (if isDrain then .pairs else kind))) rem
          (some (renderRest render (if isDrain then .iter else ik) false rest)) cnt) s
      | .panic c s => .panic c s
      | .ub => .ub)
  | "s0" | "s1" =>
    let i := if reg == "s0" then 0 else 1
    pure (customStep sys [] [i] fun sys0 =>
      match runOnSet sys0 i (if isDrain then drainStdOp E.toUnit take fin else intoIterStdOp E.toUnit .keys take fin) with
      | .ok (items, rem, _, cnt) s =>
        .ok (stdRet take (items.map fun p => (RV.key p.1 : RV DKey Unit)) rem none cnt).castU s
      | .panic c s => .panic c s
      | .ub => .ub)
  | "u0" | "u1" =>
    let i := if reg == "u0" then 0 else 1
    pure (customStep sys [] [i] fun sys0 =>
      match runOnSet sys0 i (if isDrain then drainStdOp E.toUnit take fin else intoIterStdOp E.toUnit kind take fin) with
      | .ok (items, rem, rest, cnt) s =>
        .ok (stdRet take (items.map (proj (if isDrain then .pairs else kind))) rem
          (some (renderRest render.toUnit (if isDrain then .iter else ik) false rest)) cnt).castU s
      | .panic c s => .panic c s
      | .ub => .ub)
  | _ => none


/-! ### `nth(k)` and `last()` in iterator scripts: `Model/StdIterB.lean`

Script letters `t<digit>` and `z`.  `iter` / `alg` lines whose script contains one of them run the
model's `iterOpX` / `algOpX` — std's provided methods written over the model's `next` (and, for the
lazy set operations, `fold`) — on the register, exactly as `Micromap.step` runs `iterOp` / `algOp`
for the plain scripts (`runOnMap` / `runOnSet`, the result as a list, the same touched registers).
Plain scripts go through `Micromap.step`. -/
def parseIterKind? (s : String) : Option IterKind :=
  match s with
  | "iter" => some .iter | "keys" => some .keys | "values" => some .values
  | "iter_mut" => some .iter_mut | "values_mut" => some .values_mut | _ => none

def parseAlgKind? (s : String) : Option AlgKind :=
  match s with
  | "difference" => some .difference | "intersection" => some .intersection
  | "union" => some .union | "symmetric_difference" => some .symmetric_difference | _ => none

def stdScriptStep (E : Env DKey DVal DKey) (sys : Sys DKey DVal DKey) (toks : List String) :
    Option (Sys DKey DVal DKey × Out DKey DVal DKey) := do
  let listOut {α : Type} (r : Res α (List (RV DKey Unit))) : Res α (RV DKey DVal) :=
    match r with
    | .ok l s => .ok (RV.list l).castU s
    | .panic c s => .panic c s
    | .ub => .ub
  let parse (script : String) : Option (List IterCmdX) := do
    let sc ← parseScriptX? script
    if sc.all IterCmdX.isBase then none else pure sc
  match toks with
  | [reg, "iter", kind, n, script] =>
    let sc ← parse script
    let kind ← parseIterKind? kind
    let n ← parseInt? n
    match reg with
    | "m0" | "m1" =>
      let i := if reg == "m0" then 0 else 1
      pure (customStep sys [i] [] fun sys0 =>
        match runOnMap sys0 i (iterOpX render kind (addVal n) sc) with
        | .ok l s => .ok (.list l) s
        | .panic c s => .panic c s
        | .ub => .ub)
    | "u0" | "u1" =>
      let i := if reg == "u0" then 0 else 1
      pure (customStep sys [] [i] fun sys0 =>
        listOut (runOnSet sys0 i (iterOpX render.toUnit kind id sc)))
    | _ => none
  | [reg, "iter", script] =>
    let sc ← parse script
    let i ← parseSetReg? reg
    pure (customStep sys [] [i] fun sys0 =>
      listOut (runOnSet sys0 i (iterOpX render.toUnit .keys id sc)))
  | [reg, "alg", kind, o, script] =>
    let sc ← parse script
    let i ← parseSetReg? reg
    let o ← parseSetReg? o
    let kind ← parseAlgKind? kind
    pure (customStep sys [] [i, o] fun sys0 =>
      listOut (runOnSet sys0 i do
        let s ← getS
        algOpX E.toUnit render.toUnit.dbgK kind s.r (sys0.sets o) sc))
  | _ => none

structure CaseCfg where
  capM : Nat → Nat
  capS : Nat → Nat
  mode : EqMode

def parseCase? (toks : List String) : Option (String × CaseCfg) := do
  match toks with
  | "case" :: name :: rest =>
    let kv := rest.filterMap fun t =>
      match t.splitOn "=" with | [a, b] => some (a, b) | _ => none
    let look (k : String) : Option String := (kv.find? fun p => p.1 == k).map (·.2)
    let nat (k : String) (d : Nat) : Nat := ((look k).bind String.toNat?).getD d
    let mode : EqMode := match look "eq" with
      | some s =>
        match s.splitOn ":" with
        | ["table", n] => .table (n.toNat?.getD 0)
        | ["stateful", n] => .stateful (n.toNat?.getD 0)
        | _ => .lawful
      | none => .lawful
    let m0 := nat "m0" 0; let m1 := nat "m1" 0; let s0 := nat "s0" 0; let s1 := nat "s1" 0
    pure (name, { capM := fun i => if i == 0 then m0 else m1,
                  capS := fun i => if i == 0 then s0 else s1, mode := mode })
  | _ => none

structure DState where
  sys : Sys DKey DVal DKey
  env : Env DKey DVal DKey

def freshWorld (profile : Profile) : World DKey DVal DKey :=
  { profile := profile, nextId := 100000 }

def outLine (sys : Sys DKey DVal DKey) (o : Out DKey DVal DKey) (isEnd : Bool) : String :=
  let snaps := String.join ((o.touchedMaps.eraseDups.map fun i => s!" m{i}=" ++ snapMap (sys.maps i)) ++
    (o.touchedSets.eraseDups.map fun i => s!" s{i}=" ++ snapSet (sys.sets i)))
  let base := pOutcome o.outcome ++ " ret=" ++ pRV o.ret ++ s!" nc={o.calls} ev=" ++
    pList (o.events.map pEvent) ++ snaps
  if isEnd then base ++ " leaks=" ++ pList ((sortObjs o.leaks).map pObj) else base

partial def loop (profile : Profile) (h : IO.FS.Stream) (out : IO.FS.Stream) (st : DState) : IO Unit := do
  let line ← h.getLine
  if line.isEmpty then return ()
  let toks := (line.trimAscii.toString.splitOn " ").filter (· ≠ "")
  match toks with
  | [] => loop profile h out st
  | "#" :: _ => loop profile h out st
  | "case" :: _ =>
    match parseCase? toks with
    | some (name, cfg) =>
      out.putStrLn s!"case {name}"
      loop profile h out
        { sys := Sys.init cfg.capM cfg.capS (freshWorld profile), env := mkEnv cfg.mode }
    | none =>
      out.putStrLn "bad-case"
      loop profile h out st
  | _ =>
    let toks0 := toks
    let (toks, sg) := desugar toks
    -- operations composed in the driver
    let customOut : Option (Sys DKey DVal DKey × Out DKey DVal DKey) :=
      if let some r := stdConsumeStep st.env st.sys toks0 then some r else
      if let some r := stdScriptStep st.env st.sys toks0 then some r else
      match toks with
      | [reg, "alg", "difference_ref", o, script] =>
        match parseSetReg? reg, parseSetReg? o, parseScriptX? script with
        | some i, some j, some sc => some (diffRefStep st.env st.sys i j sc)
        | _, _, _ => none
      | [reg, "extend_ref", init, xs] =>
        match parseSetReg? reg, (parseList? init).bind (·.mapM String.toNat?),
              (parseList? xs).bind (·.mapM String.toNat?) with
        | some i, some a, some b => some (extendRefStep st.sys i a b)
        | _, _, _ => none
      -- `Visitor::expecting`: the text serde puts after "expected" when the input has the wrong type
      | [reg, "serde_wrong"] => (parseReg? reg).map fun (isMap, i) =>
          customStep st.sys (if isMap then [i] else []) (if isMap then [] else [i]) fun sys0 =>
            .ok (.str ("invalid type: boolean `true`, expected " ++ (if isMap then "a Map" else "a Set"))) sys0
      | [reg, "clone_plain", xs] =>
        match parseReg? reg, parseList? xs with
        | some (isMap, i), some items =>
          let ps : Option (List (Nat × Nat)) := items.mapM fun it =>
            match it.splitOn "=" with
            | [a, b] => do pure (← a.toNat?, ← b.toNat?)
            | [a] => do pure (← a.toNat?, 0)
            | _ => none
          ps.map fun ps => clonePlainStep st.sys isMap i ps
        | _, _ => none
      | [reg, "deser", _h, xs] =>
        match parseReg? reg, parseList? xs with
        | some (isMap, i), some items =>
          let ps : Option (List (Nat × Int)) := items.mapM fun it =>
            match it.splitOn "=" with
            | [a, b] => do pure (← a.toNat?, ← b.toInt?)
            | [a] => do pure (← a.toNat?, 0)
            | _ => none
          ps.map fun ps => deserStep st.env st.sys isMap i ps
        | _, _ => none
      | [reg, "serde_zst", k] =>
        match parseReg? reg, k.toNat? with
        | some (isMap, i), some k => some (serdeZstStep st.sys isMap i k)
        | _, _ => none
      -- self-checking scenarios of the harness on element shapes the model has no registers for
      -- (pairs with padding, unsized borrowed forms): the expected report is "ok"
      | [reg, "shapes"] => (parseReg? reg).bind fun (isMap, i) =>
          if isMap then some (customStep st.sys [i] [] fun sys0 => .ok (.str "ok") sys0) else none
      -- generic differential sweeps of the harness over element shapes (zero-sized pairs, elements
      -- without drop glue, over-aligned elements, slices sharing their start address, …) against an
      -- unordered reference dictionary: the expected report is "ok"
      | [reg, "sweep", _fam, _seed] => (parseReg? reg).bind fun (isMap, i) =>
          if isMap then some (customStep st.sys [i] [] fun sys0 => .ok (.str "ok") sys0) else none
      | [reg, "defaults"] => (parseReg? reg).map fun (isMap, i) => defaultsStep st.env st.sys isMap i
      | _ => none
    if let some (sys', o) := customOut then
      out.putStrLn (outLine sys' o false)
      loop profile h out { st with sys := sys' }
    else
    match parseOp? toks with
    | none =>
      out.putStrLn "bad-op"
      loop profile h out st
    | some op =>
      let (sys', o) := step st.env render st.sys op
      let isUnit := match op with | .map _ _ => false | _ => true
      let o := applySugar sg isUnit o
      let isEnd := match op with | .endCase => true | _ => false
      out.putStrLn (outLine sys' o isEnd)
      loop profile h out { st with sys := sys' }

def main (args : List String) : IO UInt32 := do
  let profile : Profile := match args with
    | "release" :: _ => .release
    | _ => .debug
  let stdin ← IO.getStdin
  let stdout ← IO.getStdout
  loop profile stdin stdout
    { sys := Sys.init (fun _ => 0) (fun _ => 0) (freshWorld profile), env := mkEnv .lawful }
  return 0
